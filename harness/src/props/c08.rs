//! C08 — conditional assembly assembles exactly the selected branch.
//!
//! Oracles: (a) build(full program) == build(program with every unselected line and every
//! conditional directive line blanked) == reference image/messages; (b) hook trace: every selected
//! line reaches the assembling path and no line of an unselected branch does.
//! Workload: all truth assignments of enumerated chain shapes (nested), plus random deep chains
//! whose unselected branches hold hostile content (errors, duplicate labels, conflicting symbol
//! definitions, garbage, macro heads, missing includes, other devices).

use crate::fw::{self, Ctx, Outcome, Rng};
use crate::gen::ir::{self, Arm, Cond, DataOp, MsgKind, Names, Node, Opnd, Seg};
use crate::refmodel::expr::{Bin, E};
use crate::refmodel::layout::{self, RefErr};
use avra_lib::verif::{self, Event};
use serde_json::{json, Value};
use std::collections::HashSet;

const GARBAGE: [&str; 28] = [
    ".exit",
    "#exit",
    "out_lbl: .exit",
    ".exit ; the source does not end here: this line is not assembled",
    ".org 0x1f00",
    ".eseg",
    "bla bla bla",
    "ldi r16,",
    "?!$%&",
    ".unknowndirective 5",
    "\"unterminated",
    "mov r1 r2 r3",
    ".db 1,,2",
    "label without colon nop",
    ".equ = 5",
    "1234",
    "@0",
    ".endm",
    ".endmacro",
    "; .endif",
    "// .else",
    ".db \".endif\"",
    "\tnop ; .elif 1",
    ".macro never_closed_macro",
    ".include \"no/such/file.inc\"",
    ".device ATmega8515",
    "ldi r99, 1",
    ".dw undefined_symbol_in_unselected_branch",
];

struct G<'a> {
    rng: &'a mut Rng,
    names: Names,
    marker: i64,
    /// names with a top-level definition that unselected branches try to clobber
    equ_victims: Vec<String>,
    label_victims: Vec<String>,
    defined_flags: Vec<String>,
    undefined_flags: Vec<String>,
    equs: Vec<(String, i64)>,
    hostile: bool,
}

impl<'a> G<'a> {
    fn marker(&mut self) -> Node {
        self.marker += 1;
        Node::Data { label: None, width: 2, ops: vec![DataOp::E(E::Lit(0x1000 + self.marker, 1))] }
    }
    /// condition with the wanted truth value
    fn cond_expr(&mut self, truth: bool) -> E {
        match self.rng.below(6) {
            0 => E::Lit(if truth { 1 + self.rng.below(9) as i64 } else { 0 }, 0),
            1 => {
                let a = self.rng.range(0, 50);
                if truth {
                    E::bin(Bin::Lt, E::Lit(a, 0), E::Lit(a + 1 + self.rng.below(5) as i64, 0))
                } else {
                    E::bin(Bin::Gt, E::Lit(a, 0), E::Lit(a + self.rng.below(5) as i64, 0))
                }
            }
            2 | 3 if !self.equs.is_empty() => {
                let (n, v) = self.rng.pick(&self.equs).clone();
                let n = crate::gen::spell::case(&n, self.rng);
                if truth {
                    E::bin(Bin::Eq, E::Sym(n), E::Lit(v, 0))
                } else {
                    E::bin(Bin::Eq, E::Sym(n), E::Lit(v + 1, 0))
                }
            }
            4 if self.rng.chance(1, 2) => {
                let inner = E::Lit(if truth { 0 } else { 3 }, 0);
                E::un(crate::refmodel::expr::Un::Not, inner)
            }
            4 => {
                // character literals that mean something elsewhere on a line: label colon, comment opener, quote
                let c = *self.rng.pick(&[b':', b';', b'/', b'"', b'#', b'.', b',', b'@']) as i64;
                E::bin(Bin::Eq, E::Lit(c, 5), if truth { E::Lit(c, 0) } else { E::Lit(if c == 58 { 59 } else { 58 }, 5) })
            }
            _ => {
                let a = self.rng.range(1, 9);
                let l = E::Lit(a, 0);
                let r = E::Lit(if truth { a } else { 0 }, 0);
                E::bin(Bin::LAnd, l, r)
            }
        }
    }
    fn head(&mut self, truth: bool) -> Cond {
        match self.rng.below(4) {
            0 if truth && !self.defined_flags.is_empty() => Cond::Def(self.rng.pick(&self.defined_flags).clone()),
            0 if !truth && !self.undefined_flags.is_empty() => Cond::Def(self.rng.pick(&self.undefined_flags).clone()),
            1 if !truth && !self.defined_flags.is_empty() => Cond::NDef(self.rng.pick(&self.defined_flags).clone()),
            1 if truth && !self.undefined_flags.is_empty() => Cond::NDef(self.rng.pick(&self.undefined_flags).clone()),
            _ => Cond::Expr(self.cond_expr(truth)),
        }
    }
    fn body(&mut self, selected: bool, depth: u32) -> Vec<Node> {
        let mut v = vec![];
        let n = self.rng.below(4);
        for _ in 0..n {
            match self.rng.below(12) {
                0 | 1 | 2 => v.push(self.marker()),
                3 => {
                    let l = self.names.fresh("lbl", self.rng);
                    v.push(Node::Label(l));
                }
                4 => {
                    let n = self.names.fresh("eq", self.rng);
                    let val = self.rng.range(0, 999);
                    v.push(Node::Equ(n.clone(), E::Lit(val, 0)));
                    if selected {
                        // a symbol defined in a selected branch must be usable afterwards
                        v.push(Node::Data { label: None, width: 2, ops: vec![DataOp::E(E::Sym(n))] });
                    }
                }
                5 => {
                    let t = format!("msg {}", self.marker);
                    self.marker += 1;
                    v.push(Node::Message(if self.rng.chance(1, 2) { MsgKind::Message } else { MsgKind::Warning }, t));
                }
                6 if depth > 0 => v.push(self.chain(selected, depth - 1)),
                7 if !selected && self.hostile => {
                    // hostile content that must have no effect
                    match self.rng.below(7) {
                        0 => v.push(Node::Message(MsgKind::Error, "must never fire".into())),
                        1 if !self.equ_victims.is_empty() => {
                            let n = self.rng.pick(&self.equ_victims).clone();
                            v.push(Node::Equ(n, E::Lit(0x7777, 1)));
                        }
                        2 if !self.label_victims.is_empty() => {
                            let n = self.rng.pick(&self.label_victims).clone();
                            v.push(Node::Label(n));
                        }
                        3 => v.push(Node::Def("victim_alias".into(), 5)),
                        4 => v.push(Node::Set("victim_set".into(), E::Lit(0x6666, 1))),
                        5 => v.push(Node::Define("victim_flag_never_defined".into())),
                        _ => v.push(Node::Raw(self.rng.pick(&GARBAGE).to_string())),
                    }
                }
                8 if !selected && self.hostile => {
                    if self.rng.chance(1, 3) {
                        // a nested block whose opening line is not well-formed: it still is a block, and its
                        // .endif closes it, not the branch that is being skipped
                        let many = format!(".if 1{}", "+1".repeat(260));
                        let (open, inner, close) = *self.rng.pick(&[
                            (".if 1 +", "\tldi r16, (", ".endif"),
                            (".if @0", "\tnop", ".endif"),
                            (".ifdef", ".else", ".endif"),
                            ("odd_lbl: .if (((", ".error \"inside\"", ".endif"),
                            ("#if ?!", "garbage", "#endif"),
                            (".ifndef 5 5", ".elif", ".endif ; closes the odd block"),
                            ("MANY", "\t.dw 1", ".endif"),
                        ]);
                        v.push(Node::Raw(if open == "MANY" { many } else { open.to_string() }));
                        v.push(Node::Raw(inner.to_string()));
                        v.push(Node::Raw(close.to_string()));
                    } else {
                        v.push(Node::Raw(self.rng.pick(&GARBAGE).to_string()))
                    }
                }
                9 => v.push(Node::instr("ldi", vec![Opnd::Reg(16 + self.rng.below(16) as u8), Opnd::Expr(E::Lit(self.rng.range(0, 255), 0))])),
                _ => v.push(self.marker()),
            }
        }
        v
    }
    fn chain_with(&mut self, truths: &[bool], has_else: bool, enclosing_selected: bool, depth: u32) -> Node {
        let mut arms = vec![];
        let mut taken = false;
        for (i, t) in truths.iter().enumerate() {
            let cond = if i == 0 { self.head(*t) } else { Cond::Expr(self.cond_expr(*t)) };
            let sel = enclosing_selected && *t && !taken;
            if *t {
                taken = true;
            }
            let body = self.body(sel, depth);
            arms.push(Arm { cond, body });
        }
        let else_body = if has_else { Some(self.body(enclosing_selected && !taken, depth)) } else { None };
        Node::Cond { arms, else_body }
    }
    fn chain(&mut self, enclosing_selected: bool, depth: u32) -> Node {
        let n = 1 + self.rng.usize(5);
        let truths: Vec<bool> = (0..n).map(|_| self.rng.chance(2, 5)).collect();
        let has_else = self.rng.chance(1, 2);
        self.chain_with(&truths, has_else, enclosing_selected, depth)
    }
}

fn prelude(g: &mut G) -> Vec<Node> {
    let mut v = vec![Node::Comment("C08 conditional program".into())];
    for i in 0..3 {
        let n = format!("Eq_Top{}", i);
        let val = g.rng.range(1, 200);
        v.push(Node::Equ(n.clone(), E::Lit(val, 0)));
        g.equs.push((n.clone(), val));
        g.equ_victims.push(n);
    }
    for i in 0..2 {
        let f = format!("FLAG_ON_{}", i);
        v.push(Node::Define(f.clone()));
        g.defined_flags.push(f);
    }
    g.undefined_flags.push("FLAG_NEVER".into());
    g.undefined_flags.push("FLAG_LATER".into()); // defined at the very end of the file
    g.undefined_flags.push("victim_flag_never_defined".into());
    for i in 0..2 {
        let l = format!("top_label_{}", i);
        v.push(Node::Label(l.clone()));
        v.push(g.marker());
        g.label_victims.push(l);
    }
    v.push(Node::Def("victim_alias".into(), 20));
    v.push(Node::Set("victim_set".into(), E::Lit(0x11, 1)));
    v
}

fn epilogue(g: &mut G) -> Vec<Node> {
    // make leaked definitions observable
    let mut v = vec![];
    for n in g.equ_victims.clone() {
        v.push(Node::Data { label: None, width: 2, ops: vec![DataOp::E(E::Sym(n))] });
    }
    v.push(Node::instr("mov", vec![Opnd::Alias("victim_alias".into()), Opnd::Reg(0)]));
    v.push(Node::Data { label: None, width: 2, ops: vec![DataOp::E(E::Sym("victim_set".into()))] });
    // .ifdef of a flag that only unselected branches define: must still be undefined here
    v.push(Node::Cond {
        arms: vec![Arm { cond: Cond::Def("victim_flag_never_defined".into()), body: vec![Node::Data { label: None, width: 2, ops: vec![DataOp::E(E::Lit(0xdead, 1))] }] }],
        else_body: Some(vec![g.marker()]),
    });
    v.push(Node::Define("FLAG_LATER".into()));
    v.push(Node::Seg(Seg::Eeprom));
    v.push(Node::Data { label: None, width: 1, ops: vec![DataOp::E(E::Lit(0x42, 1))] });
    v
}

fn blank_lines(text: &str, blank: &HashSet<usize>) -> String {
    let mut s = String::new();
    for (i, l) in text.lines().enumerate() {
        if !blank.contains(&(i + 1)) {
            s.push_str(l);
        }
        s.push('\n');
    }
    s
}

const COND_LINE_COMMENTS: [&str; 10] = [
    " ; note: fallback",
    " // x: y",
    " /* a:b */",
    " ; .endif",
    " ; .else",
    " // .if 0",
    " ; \"quoted: text",
    " ;:",
    " ; ends with a backslash \\",
    " /* closes */ ; twice: commented",
];

/// every third conditional directive line gets a trailing comment (chosen by the line text, so a replay
/// decorates the same way)
fn decorate_conditional_lines(src: &str) -> String {
    let mut out = String::with_capacity(src.len() + 64);
    for (i, line) in src.lines().enumerate() {
        let t = line.trim_start().to_lowercase();
        let is_cond = [".if", ".elif", ".else", ".endif", "#if", "#elif", "#else", "#endif"].iter().any(|k| t.starts_with(k));
        let h = fw::hash_str(line).wrapping_add(i as u64 * 7);
        // one in seven stands far to the right: however far a directive is indented, it is the directive
        if is_cond && h % 7 == 3 {
            out.push_str(&[" ", "\t", " \t"][(h / 7 % 3) as usize].repeat(90 + (h / 21 % 200) as usize));
        }
        out.push_str(line);
        if is_cond && !line.contains('"') && !line.contains("/*") && h % 3 == 0 {
            out.push_str(COND_LINE_COMMENTS[(h / 3 % COND_LINE_COMMENTS.len() as u64) as usize]);
        }
        out.push('\n');
    }
    out
}

pub fn check(ctx: &Ctx, nodes: &[Node], shape: &str) {
    let src = ir::print_canonical(nodes);
    let reference = layout::assemble(&layout::single(nodes.to_vec()));
    ctx.eval(1);
    let r = match reference {
        Ok(r) => r,
        Err(RefErr::Indeterminate(_)) => {
            ctx.count("reference_undecided", 1);
            return;
        }
        Err(RefErr::Fail(f)) => {
            // generated programs are valid by construction
            ctx.inconclusive(format!("generator produced a program the reference rejects: {:?} line {}", f.kind, f.line));
            return;
        }
    };
    let mut blank: HashSet<usize> = r.unselected.iter().map(|(_, l)| *l).collect();
    blank.extend(r.cond_lines.iter().map(|(_, l)| *l));
    let deleted = blank_lines(&src, &blank);
    // trailing comments on the conditional directive lines themselves (selected, skipped or nested in skipped
    // text alike): a comment never changes what a line means, whatever it holds
    let src = decorate_conditional_lines(&src);
    fw::hook_enable(verif::LINE);
    let _ = verif::take();
    let full = fw::build_str(&src);
    let events = verif::take();
    fw::hook_enable(0);
    let del = fw::build_str(&deleted);
    let replay = |d: Value| json!({"source": src, "deleted": deleted, "shape": shape, "detail": d, "observed": full.brief(), "observed_deleted": del.brief()});
    let sig_shape = shape_sig(nodes);
    if !del.is_ok() {
        // the program without its unselected lines must be a plain valid program
        ctx.inconclusive(format!("program with unselected lines deleted does not build: {:?}", del.brief()));
        return;
    }
    match (&full, &del) {
        (Outcome::Panic(p), _) => ctx.violation(format!("cond/{}/panic", sig_shape), format!("conditional program panicked: {}", fw::clip(p, 120)), replay(json!(null))),
        (Outcome::Err(e), _) => ctx.violation(
            format!("cond/{}/unselected-line-had-effect/error", sig_shape),
            format!("build fails although the program with the unselected lines deleted builds: {}", fw::clip(e, 140)),
            replay(json!(null)),
        ),
        (Outcome::Ok(a), Outcome::Ok(b)) => {
            if a != b {
                let what = if a.code != b.code || a.eeprom != b.eeprom { "image" } else if a.messages != b.messages { "messages" } else { "sizes" };
                ctx.violation(
                    format!("cond/{}/differs-from-deleted/{}", sig_shape, what),
                    format!("result differs from the program with the unselected lines deleted ({}): code {} vs {}", what, fw::hex(&a.code, 40), fw::hex(&b.code, 40)),
                    replay(json!(null)),
                );
            } else if a.code != r.code || a.eeprom != r.eeprom {
                ctx.violation(format!("cond/{}/differs-from-reference", sig_shape), format!("image differs from the reference: {} vs {}", fw::hex(&a.code, 40), fw::hex(&r.code, 40)), replay(json!({"expect_code": fw::hex(&r.code, 4096)})));
            } else {
                // messages: text and line in source order
                let ok = a.messages.len() == r.messages.len() && a.messages.iter().zip(&r.messages).all(|(m, rm)| m.contains(&rm.text) && has_line_token(m, rm.line));
                if !ok {
                    ctx.violation(format!("cond/{}/messages", sig_shape), format!("messages {:?} vs expected {:?}", a.messages, r.messages.iter().map(|m| (m.line, m.text.clone())).collect::<Vec<_>>()), replay(json!(null)));
                } else {
                    crate::props::variants::check_one(ctx, nodes, a, &mut Rng::for_case(fw::hash_str(&src), 0x7A80, 0), "cond");
                }
            }
        }
        _ => {}
    }
    // trace oracle
    let seen: HashSet<usize> = events
        .iter()
        .filter_map(|e| match e {
            Event::Line { line_num, .. } => Some(*line_num),
            _ => None,
        })
        .collect();
    if full.is_ok() {
        for (_, l) in &r.selected {
            if !seen.contains(l) {
                ctx.violation(format!("cond/{}/trace/selected-line-not-assembled", sig_shape), format!("selected line {} never reached the assembling path", l), replay(json!({"line": l})));
                break;
            }
        }
    }
    for (_, l) in &r.unselected {
        if seen.contains(l) {
            ctx.violation(format!("cond/{}/trace/unselected-line-assembled", sig_shape), format!("line {} of an unselected branch reached the assembling path: `{}`", l, src.lines().nth(l - 1).unwrap_or("")), replay(json!({"line": l})));
            break;
        }
    }
    // the same program with (unreferenced, unique) labels in front of its conditional directives:
    // `name: .if`, `name: .else`, `name: .endif` are directive lines like any other, selected or not
    if full.is_ok() {
        let mut in_macro = false;
        let mut labelled = String::new();
        let mut n_labelled = 0u64;
        let mut labelled_lines: Vec<usize> = vec![];
        let cond: HashSet<usize> = r.cond_lines.iter().map(|(_, l)| *l).collect();
        for (i, l) in src.lines().enumerate() {
            let t = l.trim_start().to_ascii_lowercase();
            if t.starts_with(".macro") {
                in_macro = true;
            }
            let is_cond = [".if", ".elif", ".else", ".endif", "#if", "#elif", "#else", "#endif"].iter().any(|d| t.starts_with(d));
            let _ = &cond;
            if !in_macro && is_cond && (i + fw::hash_str(&src) as usize) % 3 != 0 {
                // (every fifth such label is very long)
                labelled.push_str(&format!("c08_at_line_{}{}: ", i + 1, if i % 5 == 2 { "_and_a_very_long_name_at_that".repeat(6) } else { String::new() }));
                n_labelled += 1;
                labelled_lines.push(i + 1);
            }
            if t.starts_with(".endm") {
                in_macro = false;
            }
            labelled.push_str(l);
            labelled.push('\n');
        }
        if n_labelled > 0 {
            let lab = fw::build_str(&labelled);
            ctx.eval(1);
            ctx.count("conditional_lines_given_a_label", n_labelled);
            let same = match (&full, &lab) {
                (Outcome::Ok(a), Outcome::Ok(b)) => a.code == b.code && a.eeprom == b.eeprom && a.messages == b.messages && a.ram_filling == b.ram_filling,
                _ => false,
            };
            // a label that stands on a line of an unselected branch exists nowhere: naming it is an error
            let unsel: HashSet<usize> = r.unselected.iter().map(|(_, l)| *l).collect();
            if let Some(l) = labelled_lines.iter().find(|l| unsel.contains(l)) {
                let referencing = format!("{}.cseg\n\t.dw c08_at_line_{}{}\n", labelled, l, if (l - 1) % 5 == 2 { "_and_a_very_long_name_at_that".repeat(6) } else { String::new() });
                let o = fw::build_str(&referencing);
                ctx.eval(1);
                ctx.count("references_to_labels_of_unselected_lines", 1);
                if !o.is_err() {
                    ctx.violation(
                        format!("cond/{}/label-of-unselected-line-exists", sig_shape),
                        format!("the label in front of unselected line {} can be referenced: {:?}", l, o.kind()),
                        json!({"source": referencing, "deleted": "this is not assembler\n", "shape": shape, "detail": "label of an unselected line referenced", "observed": o.brief()}),
                    );
                }
            }
            if !same {
                ctx.violation(
                    format!("cond/{}/labelled-directive-lines", sig_shape),
                    format!("with labels in front of its conditional directives the program no longer builds to the same result: {:?}", lab.brief()),
                    json!({"source": labelled, "deleted": deleted, "shape": shape, "detail": "labelled", "observed": lab.brief(), "observed_deleted": del.brief()}),
                );
            }
        }
    }
    ctx.count("selected_lines_traced", r.selected.len() as u64);
    ctx.count("unselected_lines_traced", r.unselected.len() as u64);
    ctx.count("line_events", seen.len() as u64);
}

pub fn has_line_token(msg: &str, line: usize) -> bool {
    let tok = format!("line: {}", line);
    let mut from = 0;
    while let Some(p) = msg[from..].find(&tok) {
        let end = from + p + tok.len();
        if !msg[end..].chars().next().map(|c| c.is_ascii_digit()).unwrap_or(false) {
            return true;
        }
        from = end;
    }
    false
}

/// signature family from the structure of the first top-level chain that has a non-trivial shape:
/// which arm is selected and what follows it
fn shape_sig(nodes: &[Node]) -> String {
    for n in nodes {
        if let Node::Cond { arms, else_body } = n {
            if arms.len() == 1 && else_body.is_some() && matches!(arms[0].cond, Cond::Def(ref f) if f == "victim_flag_never_defined") {
                continue;
            }
            return format!("{}arms{}", arms.len(), if else_body.is_some() { "+else" } else { "" });
        }
    }
    "none".into()
}

fn enumerated(ctx: &Ctx, max_arms: usize, nest: bool) -> u64 {
    let mut count = 0;
    let mut idx = 0u64;
    for n in 1..=max_arms {
        for has_else in [false, true] {
            for mask in 0..(1u32 << n) {
                let truths: Vec<bool> = (0..n).map(|i| mask & (1 << i) != 0).collect();
                for variant in 0..3u64 {
                    idx += 1;
                    let mut rng = Rng::for_case(ctx.seed, 0xC08_E, idx);
                    let mut g = G { rng: &mut rng, names: Names::new(), marker: 0, equ_victims: vec![], label_victims: vec![], defined_flags: vec![], undefined_flags: vec![], equs: vec![], hostile: variant > 0 };
                    let mut nodes = prelude(&mut g);
                    let depth = if nest && variant == 2 { 1 } else { 0 };
                    let c = g.chain_with(&truths, has_else, true, depth);
                    nodes.push(c);
                    nodes.push(g.marker());
                    nodes.extend(epilogue(&mut g));
                    ctx.distinct(fw::hash_str(&format!("enum{}{}{}{}", n, has_else, mask, variant)));
                    check(ctx, &nodes, &format!("enumerated n={} else={} truths={:?} variant={}", n, has_else, truths, variant));
                    count += 1;
                }
            }
        }
    }
    count
}

fn random_program(rng: &mut Rng, depth: u32) -> Vec<Node> {
    let mut g = G { rng, names: Names::new(), marker: 0, equ_victims: vec![], label_victims: vec![], defined_flags: vec![], undefined_flags: vec![], equs: vec![], hostile: true };
    let mut nodes = prelude(&mut g);
    let chains = 1 + g.rng.usize(3);
    for _ in 0..chains {
        let c = g.chain(true, depth);
        nodes.push(c);
        nodes.push(g.marker());
    }
    nodes.extend(epilogue(&mut g));
    nodes
}

/// Conditional chains inside macro bodies, decided by #define flags that the expansions themselves
/// set (emit-once blocks, a flag set by another macro between two identical calls): every call must
/// select its branch from the state at that point. Oracle: the same program with every call
/// replaced by its body (expanded on the IR), and the reference image.
/// Unselected branches inside the body of a macro that takes parameters: they may name parameters the
/// call does not pass (an optional last parameter), or hold garbage around an `@n` - no effect either way.
/// Hundreds of conditional blocks open at once inside text that is being skipped, with lines between the inner
/// `.endif`s and an `.else` of the outer block behind them: the skipper's count of open blocks has no small limit.
fn deep_nesting_in_skipped_text(ctx: &Ctx) {
    for depth in [100usize, 254, 255, 256, 257, 300, 511, 512, 513, 1000, 70000] {
        for (k, opener) in [".if 1", ".ifdef never_defined_deep", ".ifndef never_defined_deep", ".if 0"].iter().enumerate() {
            if depth > 1000 && k > 0 {
                continue;
            }
            let mut src = String::from("\tnop\n.if 0\n");
            for _ in 0..depth {
                src.push_str(opener);
                src.push_str("\n\tsei\n");
            }
            for j in 0..depth {
                src.push_str(if j % 3 == 0 { "\tsleep\n.else\n\twdr\n.endif\n" } else { "\tsleep\n.endif\n" });
            }
            src.push_str("\t.error \"still skipped\"\n.else\n\tret\n.endif\n\tcli\n");
            let out = fw::build_str(&src);
            ctx.eval(1);
            ctx.count("deep_nesting_in_skipped_text", 1);
            ctx.distinct(fw::hash_str(&format!("deep|{}|{}", depth, opener)));
            let want: Vec<u8> = vec![0x00, 0x00, 0x08, 0x95, 0xf8, 0x94];
            if !matches!(&out, Outcome::Ok(b) if b.code == want) {
                ctx.violation(
                    format!("cond/deep-nesting-in-skipped-text/{}", if depth < 256 { "below-256" } else if depth < 65536 { "256-and-more" } else { "65536-and-more" }),
                    format!("{} `{}` blocks nested inside `.if 0`: expected nop / ret / cli, got {}", depth, opener, fw::clip(&format!("{:?}", out.brief()), 160)),
                    json!({"source": src, "deleted": "\tnop\n\tret\n\tcli\n", "shape": "deep-nesting", "detail": {"expect_code": fw::hex(&want, 64)}, "observed": out.brief()}),
                );
            }
        }
    }
}

fn optional_parameters(ctx: &Ctx, n: u64) {
    fw::par_for(n, 16, |i| {
        let mut rng = Rng::for_case(ctx.seed, 0xC08_B, i);
        let nargs = 1 + rng.usize(3);
        let used: Vec<String> = (0..nargs).map(|k| format!("@{}", k)).collect();
        let beyond = nargs + rng.usize(3);
        let mut body = String::new();
        let mut parts: Vec<u8> = (0..4).collect();
        rng.shuffle(&mut parts);
        for part in parts.iter().take(2 + rng.usize(3)) {
            match part {
                0 => body.push_str(&format!(".if 0\n\t.dw @{}\n\tgarbage @{} (\n.endif\n", beyond, beyond + 1)),
                1 => body.push_str(&format!(".ifdef OPTIONAL_NOT_GIVEN_{}\n\t.dw @0, @{}\n.else\n\t.dw {}\n.endif\n", i, beyond, used.join(", "))),
                // (the condition of an .elif line is part of the chain, not of a branch: it stays well-formed)
                2 => body.push_str(&format!(".ifndef OPTIONAL_NOT_GIVEN_{}\n\t.dw {}\n.elif 1\n\tldi r16, @{}\n.else\n\t.if @{} > 1\n\t.error \"not this branch @{}\"\n\t.endif\n.endif\n", i, used.join(", "), beyond, beyond, beyond)),
                _ => body.push_str(&format!(".if 1\n\t.dw {}\n.else\n\t.db @{}, @{}\n\tldi @{}, @{}\n.endif\n", used.join(", "), beyond, beyond + 2, beyond, beyond)),
            }
        }
        let emits = body.matches(&format!("\t.dw {}\n", used.join(", "))).count();
        let mut src = format!("; C08 optional parameters\n.macro opt_mac\n{}.endm\n", body);
        let mut expect: Vec<u8> = vec![];
        for _ in 0..2 + rng.usize(3) {
            let vals: Vec<u16> = (0..nargs).map(|_| rng.below(0x10000) as u16).collect();
            src.push_str(&format!("\topt_mac {}\n", vals.iter().map(|v| format!("{}", v)).collect::<Vec<_>>().join(", ")));
            for _ in 0..emits {
                for v in &vals {
                    expect.extend(v.to_le_bytes());
                }
            }
        }
        let out = fw::build_str(&src);
        ctx.eval(1);
        ctx.count("optional_parameter_programs", 1);
        ctx.distinct(fw::hash_str(&src));
        if !matches!(&out, Outcome::Ok(b) if b.code == expect) {
            ctx.violation(
                "cond/in-macro-body/unselected-branch-names-missing-parameter",
                format!("macro called with {} argument(s) whose unselected branches name @{}: {}", nargs, beyond, fw::clip(&format!("{:?}", out.brief()), 200)),
                json!({"source": src, "deleted": src, "shape": "optional-parameter", "detail": {"expect_code": fw::hex(&expect, 4096)}, "observed": out.brief()}),
            );
        }
    });
}

/// An instruction the selected device lacks, inside unselected branches - at top level, in a macro
/// body, in the body of a macro called by a macro: it is unselected text like any other. Every device
/// that lacks something x up to four of the forms it lacks.
fn device_gated_unselected(ctx: &Ctx) {
    use crate::refmodel::{devices, isa};
    let table = devices::table();
    let forms = isa::forms();
    fw::par_items(&table, |di, (name, dev)| {
        let reduced = devices::is_reduced(dev);
        let lacking: Vec<&isa::Form> = forms
            .iter()
            .filter(|f| !((f.core == isa::Core::Reduced && !reduced) || (f.core == isa::Core::Full && reduced)))
            .filter(|f| devices::forbidding_flag(dev, &f.name).is_some())
            .collect();
        let mut rng = Rng::for_case(ctx.seed, 0xC08_D, di as u64);
        for k in 0..lacking.len().min(4) {
            let f = lacking[(k * 7 + di) % lacking.len()];
            let bad = f.text(&f.tuple_at(rng.below(f.space())));
            let (a, b) = (rng.below(0x10000), rng.below(0x10000));
            let src = format!(
                "; C08 device-gated lines in unselected branches\n.device {}\n.macro gated_inner\n.ifdef HAS_IT_{}\n\t{}\n.else\n\t.dw @0\n.endif\n.endm\n.macro gated_outer\n.if 0\n\t{}\n.elif 1\n\tgated_inner @0\n.else\n\t{}\n.endif\n.endm\n\tgated_outer {}\n.if 0\n\t{}\n.endif\n.ifndef HAS_IT_{}\n\t.dw {}\n.else\n\t{}\n.endif\n\tgated_inner {}\n",
                name, k, bad, bad, bad, a, bad, k, b, bad, a
            );
            let mut expect: Vec<u8> = vec![];
            expect.extend((a as u16).to_le_bytes());
            expect.extend((b as u16).to_le_bytes());
            expect.extend((a as u16).to_le_bytes());
            let out = fw::build_str(&src);
            ctx.eval(1);
            ctx.count("device_gated_unselected_programs", 1);
            ctx.distinct(fw::hash_str(&src));
            if !matches!(&out, Outcome::Ok(r) if r.code == expect) {
                ctx.violation(
                    "cond/device-gated-line-in-unselected-branch",
                    format!("{}: `{}` stands in unselected branches only: {}", name, bad, fw::clip(&format!("{:?}", out.brief()), 160)),
                    json!({"source": src, "deleted": src, "shape": "device-gated", "detail": {"expect_code": fw::hex(&expect, 64)}, "observed": out.brief()}),
                );
            }
        }
    });
}

fn macro_hosted(ctx: &Ctx, n: u64) {
    fw::par_for(n, 16, |i| {
        let mut rng = Rng::for_case(ctx.seed, 0xC08_A, i);
        let mut marker = 0i64;
        let mut mk = |m: &mut i64| {
            *m += 1;
            Node::Data { label: None, width: 2, ops: vec![DataOp::E(E::Lit(0x3000 + *m, 1))] }
        };
        let n_flags = 1 + rng.usize(3);
        let flags: Vec<String> = (0..n_flags).map(|k| format!("HOSTED_FLAG_{}", k)).collect();
        let mut nodes = vec![Node::Comment("C08 chains inside macro bodies".into())];
        let n_macros = 1 + rng.usize(3);
        let mut names = vec![];
        for m in 0..n_macros {
            let name = format!("hosted_mac_{}", m);
            let mut body = vec![];
            for _ in 0..1 + rng.usize(3) {
                let flag = rng.pick(&flags).clone();
                match rng.below(4) {
                    0 => {
                        // emit once
                        let (a, b) = (mk(&mut marker), mk(&mut marker));
                        body.push(Node::Cond { arms: vec![Arm { cond: Cond::NDef(flag.clone()), body: vec![Node::Define(flag), a] }], else_body: if rng.chance(1, 2) { Some(vec![b]) } else { None } });
                    }
                    1 => {
                        let (a, b, c) = (mk(&mut marker), mk(&mut marker), mk(&mut marker));
                        let other = rng.pick(&flags).clone();
                        // chain with an .elif-like second test through nesting (.elif takes expressions only)
                        body.push(Node::Cond { arms: vec![Arm { cond: Cond::Def(flag), body: vec![a] }], else_body: Some(vec![Node::Cond { arms: vec![Arm { cond: Cond::NDef(other), body: vec![b] }], else_body: Some(vec![c]) }]) });
                    }
                    2 => {
                        body.push(Node::Define(flag));
                        body.push(mk(&mut marker));
                    }
                    _ => body.push(mk(&mut marker)),
                }
            }
            nodes.push(Node::MacroDef { name: name.clone(), body, end_long: rng.chance(1, 2) });
            names.push(name);
        }
        // calls: repeated, identical, interleaved
        for _ in 0..2 + rng.usize(6) {
            nodes.push(Node::MacroCall { name: rng.pick(&names).clone(), args: vec![] });
            if rng.chance(1, 3) {
                nodes.push(mk(&mut marker));
            }
        }
        let mut macros = std::collections::HashMap::new();
        layout::collect_macros(&nodes, &mut macros);
        let Ok(expanded) = layout::expand_macros(&nodes, &macros, 0) else { return };
        let reference = layout::assemble(&layout::single(nodes.clone()));
        let src = ir::print_canonical(&nodes);
        let hand = ir::print_canonical(&expanded);
        let a = fw::build_str(&src);
        let b = fw::build_str(&hand);
        ctx.eval(1);
        ctx.count("chains_inside_macro_bodies_programs", 1);
        ctx.distinct(fw::hash_str(&src));
        let same = match (&a, &b, &reference) {
            (Outcome::Ok(x), Outcome::Ok(y), Ok(r)) => x.code == y.code && x.code == r.code,
            _ => false,
        };
        if !same {
            ctx.violation(
                "cond/in-macro-body/differs-from-expanded-program",
                format!("macro-hosted conditional chains: {:?} vs hand-expanded {:?}", fw::clip(&format!("{:?}", a.brief()), 120), fw::clip(&format!("{:?}", b.brief()), 120)),
                json!({"source": src, "deleted": hand, "shape": "macro-hosted", "observed": a.brief(), "observed_deleted": b.brief()}),
            );
        }
    });
}

pub fn random_nodes(rng: &mut Rng) -> Vec<Node> {
    random_program(rng, 3)
}

/// Very many complete chains one after the other (nothing nested deeper than two levels): whatever the
/// assembler counts while it reads conditionals comes back to where it was after every chain.
fn many_chains(ctx: &Ctx) {
    // (text of one chain, the lines of it that are assembled)
    let shapes: Vec<(&str, &str, &str)> = vec![
        ("taken-then-elif", ".if 1\n.dw 1\n.elif 1\n.dw 2\n.endif\n", ".dw 1\n"),
        ("untaken-then-elif", ".if 0\n.dw 1\n.elif 1\n.dw 2\n.endif\n", ".dw 2\n"),
        ("untaken-then-else", ".if 0\n.dw 1\n.else\n.dw 2\n.endif\n", ".dw 2\n"),
        ("taken-then-else", ".if 1\n.dw 1\n.else\n.dw 2\n.endif\n", ".dw 1\n"),
        ("untaken-alone", ".if 0\n.dw 1\n.endif\n.dw 5\n", ".dw 5\n"),
        ("taken-alone", ".if 1\n.dw 1\n.endif\n", ".dw 1\n"),
        ("nested-in-taken", ".if 1\n.if 0\n.dw 1\n.elif 1\n.dw 2\n.endif\n.dw 3\n.else\n.dw 4\n.endif\n", ".dw 2\n.dw 3\n"),
        ("nested-in-untaken", ".if 0\n.if 1\n.dw 1\n.elif 1\n.dw 9\n.endif\n.elif 0\n.dw 2\n.else\n.dw 3\n.endif\n", ".dw 3\n"),
        ("ifdef-else", ".ifdef never_defined_flag\n.dw 1\n.else\n.dw 2\n.endif\n", ".dw 2\n"),
        ("ifndef-elif-else", ".ifndef never_defined_flag\n.dw 1\n.elif 1\n.dw 2\n.else\n.dw 3\n.endif\n", ".dw 1\n"),
        ("three-elifs-after-taken", ".if 1\n.dw 1\n.elif 1\n.dw 2\n.elif 0\n.dw 3\n.elif 1\n.dw 4\n.else\n.dw 5\n.endif\n", ".dw 1\n"),
        ("taken-elif-holding-a-chain", ".if 0\n.dw 1\n.elif 1\n.if 1\n.dw 2\n.elif 1\n.dw 3\n.endif\n.else\n.dw 4\n.endif\n", ".dw 2\n"),
    ];
    let counts: Vec<usize> = if ctx.tier == fw::Tier::Thorough { vec![130, 260, 1000, 33000, 70000, 140000] } else { vec![260, 70000] };
    let mut jobs: Vec<(String, String, String, usize)> = vec![];
    for n in counts.iter() {
        for (name, full, kept) in shapes.iter() {
            jobs.push((format!("{}/{}", name, n), full.repeat(*n), kept.repeat(*n), kept.matches(".dw").count() * *n));
            if *n <= 1000 {
                // the same inside the body of a macro that is called once
                jobs.push((format!("{}/in-macro-body/{}", name, n), format!(".macro chains\n{}.endm\n\tchains\n", full.repeat(*n)), kept.repeat(*n), kept.matches(".dw").count() * *n));
            }
        }
        let mixed_full: String = (0..*n).map(|i| shapes[i % shapes.len()].1).collect();
        let mixed_kept: String = (0..*n).map(|i| shapes[i % shapes.len()].2).collect();
        let words = mixed_kept.matches(".dw").count();
        jobs.push((format!("mixed/{}", n), mixed_full, mixed_kept, words));
    }
    fw::par_items(&jobs, |_, (name, full, kept, words)| {
        let a = fw::build_str(full);
        let b = fw::build_str(kept);
        ctx.eval(1);
        ctx.count("many_chains_builds", 1);
        let ok = a == b && matches!(&a, Outcome::Ok(r) if r.code.len() == 2 * words);
        if !ok {
            let shape = name.split('/').next().unwrap_or("");
            ctx.violation(
                format!("cond/many-chains-in-a-row/{}{}", shape, if name.contains("in-macro-body") { "/in-macro-body" } else { "" }),
                format!("{} chains one after the other ({}): {} - with the unselected lines deleted: {}", name.rsplit('/').next().unwrap_or(""), shape, fw::clip(&format!("{:?}", a.brief()), 140), fw::clip(&format!("{:?}", b.brief()), 80)),
                json!({"source": full, "deleted": kept, "detail": {"many_chains": name}}),
            );
        }
    });
}

pub fn run(ctx: &Ctx) -> i32 {
    deep_nesting_in_skipped_text(ctx);
    many_chains(ctx);
    let max_arms = ctx.tier.pick(3usize, 5usize);
    let n_enum = enumerated(ctx, max_arms, true);
    ctx.put("enumerated_programs", json!(n_enum));
    let n = ctx.tier.pick(3_000u64, 3_000_000u64);
    let depth = ctx.tier.pick(3u32, 4u32);
    fw::par_for(n, 32, |i| {
        let mut rng = Rng::for_case(ctx.seed, 0xC08, i);
        let nodes = random_program(&mut rng, depth);
        let text = ir::print_canonical(&nodes);
        ctx.distinct(fw::hash_str(&text));
        if i < 3 {
            ctx.sample(json!({"program": text.lines().collect::<Vec<_>>()}));
        }
        check(ctx, &nodes, "random");
    });
    macro_hosted(ctx, ctx.tier.pick(1_000u64, 1_000_000u64));
    optional_parameters(ctx, ctx.tier.pick(600u64, 200_000u64));
    device_gated_unselected(ctx);
    ctx.exhaustive.store(false, std::sync::atomic::Ordering::Relaxed);
    fw::finish(
        ctx,
        "conditional chains (.if/.ifdef/.ifndef head, up to 5 .elif arms, optional .else) under every truth assignment for all shapes up to 3 arms (thorough: 5), with and without nesting and hostile unselected content, plus random programs nested up to 4 deep; conditions on literals, comparisons, logical operators, .equ constants and #define flags defined before / after / only inside unselected branches; unselected branches carry .error, clobbering .equ/.set/.def/#define, duplicate labels, garbage text, unterminated .macro heads, missing .include, other .device; plus programs whose chains sit inside macro bodies and test #define flags that the expansions themselves set (emit-once blocks, flags set by another macro between identical calls), compared with the program in which every call is replaced by its body; every valid program once more in one randomly chosen setting that means nothing (as a file beginning with blank lines / CRLF / no final line end; a run of top-level lines in an included file; inside a selected branch; followed by .exit and unread text; preceded by unused definitions; respelled; branch and included file at once) with the same images, sizes, RAM extent and message texts required (props/variants.rs; counters variants:*); distinct_nontrivial = distinct program texts / enumerated shapes",
        &["refmodel/layout.rs conditional semantics (first true branch, else when none); the blanked program keeps line numbers so whole BuildResults are compared"],
    )
}

pub fn replay(ctx: &Ctx, case: &Value) -> i32 {
    if case.get("variant").is_some() {
        return crate::props::variants::replay(ctx, case);
    }
    let src = case["source"].as_str().unwrap_or("");
    let deleted = case["deleted"].as_str().unwrap_or("");
    let a = fw::build_str(src);
    let b = fw::build_str(deleted);
    ctx.eval(1);
    ctx.distinct(1);
    ctx.distinct(2);
    if case["detail"].as_str() == Some("label of an unselected line referenced") {
        if !a.is_err() {
            ctx.violation("cond/replay", "the label of an unselected line can still be referenced", case.clone());
        }
    } else if a != b || !a.is_ok() {
        ctx.violation("cond/replay", format!("full program and program with unselected lines deleted still differ: {:?} vs {:?}", a.kind(), b.kind()), case.clone());
    } else if let (Some(want), Outcome::Ok(r)) = (case["detail"]["expect_code"].as_str(), &a) {
        if fw::hex(&r.code, 4096) != want {
            ctx.violation("cond/replay", "image still differs from the expected one", case.clone());
        }
    }
    fw::finish(ctx, "replay", &[])
}
