pub mod devices;
pub mod expr;
pub mod ihex;
pub mod isa;
pub mod layout;
pub mod llvm;
