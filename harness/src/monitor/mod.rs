pub mod alloc;
pub mod worker;
