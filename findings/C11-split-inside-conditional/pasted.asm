nop
.if 0
ldi r16, 1
.endif
ret
