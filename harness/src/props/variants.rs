//! Surroundings that mean nothing: every valid program a generator makes is built once more in one
//! randomly chosen other setting - as a file that begins with blank lines / ends without a line end /
//! uses CRLF, with a run of its top-level lines moved into an included file, with everything inside a
//! selected conditional branch, followed by `.exit` and text that is never read, preceded by
//! definitions nobody uses, or respelled - and must give the same images, sizes, RAM extent and message
//! texts. None of the properties is about these settings as such; each of them quantifies over
//! programs however they reach the assembler, and a defect that needs one of these settings to show
//! is invisible to a generator that always hands over one tidy string.

use crate::fw::{self, BuildResult, Ctx, Outcome, Rng};
use crate::gen::ir::{self, Node, Style};
use serde_json::{json, Value};

pub const KINDS: [&str; 7] = ["as-file-with-blank-lines-and-odd-line-ends", "lines-in-included-file", "inside-selected-branch", "followed-by-exit-and-text", "preceded-by-unused-definitions", "respelled", "as-file-lines-in-included-file-inside-branch"];

fn texts(msgs: &[String]) -> Vec<String> {
    msgs.iter()
        .map(|m| match m.rfind("line: ") {
            Some(p) => m[..p].to_string(),
            None => m.clone(),
        })
        .collect()
}

fn same(a: &BuildResult, b: &BuildResult) -> bool {
    a.code == b.code && a.eeprom == b.eeprom && a.ram_filling == b.ram_filling && (a.flash_size, a.eeprom_size, a.ram_size) == (b.flash_size, b.eeprom_size, b.ram_size) && texts(&a.messages) == texts(&b.messages)
}

fn header_len(nodes: &[Node]) -> usize {
    // leading comment and device line stay where they are
    nodes.iter().take_while(|n| matches!(n, Node::Comment(_) | Node::Device(_))).count()
}

fn holds(nodes: &[Node], pred: &dyn Fn(&Node) -> bool) -> bool {
    nodes.iter().any(|n| {
        pred(n)
            || match n {
                Node::Cond { arms, else_body } => arms.iter().any(|a| holds(&a.body, pred)) || else_body.as_ref().map(|b| holds(b, pred)).unwrap_or(false),
                Node::MacroDef { body, .. } => holds(body, pred),
                _ => false,
            }
    })
}

fn lead(rng: &mut Rng) -> String {
    (0..rng.usize(4)).map(|_| *rng.pick(&["\n", "  \n", "\t\n", "\r\n"])).collect()
}

/// (main text, part text or None) of the chosen variant; None when the variant does not fit the program
fn make(nodes: &[Node], kind: usize, rng: &mut Rng) -> Option<(Vec<u8>, Option<Vec<u8>>)> {
    let has_exit = holds(nodes, &|n| matches!(n, Node::Exit)) || ir::print_canonical(nodes).to_lowercase().contains(".exit");
    let has_files = holds(nodes, &|n| matches!(n, Node::Include { .. } | Node::IncludePath(_)));
    if has_files {
        return None;
    }
    let h = header_len(nodes);
    let split = |rng: &mut Rng, nodes: &[Node]| -> Option<(String, String)> {
        if nodes.len() < h + 2 || has_exit {
            return None;
        }
        let a = h + rng.usize(nodes.len() - h - 1);
        let b = a + 1 + rng.usize(nodes.len() - a - 1);
        Some((format!("{}.include \"part.inc\"\n{}", ir::print_canonical(&nodes[..a]), ir::print_canonical(&nodes[b..])), ir::print_canonical(&nodes[a..b])))
    };
    let in_branch = |rng: &mut Rng, nodes: &[Node]| -> String {
        let (open, close) = *rng.pick(&[(".if 1\n", ".endif\n"), (".ifndef never_defined_in_variants\n", ".endif\n"), (".if 0\n.else\n", ".endif\n"), (".ifdef never_defined_in_variants\n.elif 2 > 1\n", ".else\n.error \"not this one\"\n.endif\n")]);
        format!("{}{}{}{}", ir::print_canonical(&nodes[..h]), open, ir::print_canonical(&nodes[h..]), close)
    };
    match kind {
        0 => {
            let mut t = format!("{}{}", lead(rng), ir::print_canonical(nodes));
            if rng.chance(1, 2) {
                t = t.replace('\n', "\r\n").replace("\r\r\n", "\r\n");
            }
            if rng.chance(1, 2) {
                while t.ends_with('\n') || t.ends_with('\r') {
                    t.pop();
                }
            }
            Some((t.into_bytes(), Some(vec![])))
        }
        1 => {
            let (main, part) = split(rng, nodes)?;
            Some((format!("{}{}", lead(rng), main).into_bytes(), Some(format!("{}{}", lead(rng), part).into_bytes())))
        }
        2 => Some((in_branch(rng, nodes).into_bytes(), None)),
        3 => Some((format!("{}.exit\nthis text is never read: ldi r99, ( \"\n.error \"nor this\"\n.endif\n.endm\n", ir::print_canonical(nodes)).into_bytes(), None)),
        4 => {
            let unused = ".macro never_called_in_variants\n\tldi r16, @0\n\t.error \"never expanded\"\n.endm\n.equ never_used_in_variants = 1 << 20\n#define NEVER_TESTED_IN_VARIANTS\n.set never_read_in_variants = -1\n";
            Some((format!("{}{}{}", ir::print_canonical(&nodes[..h]), unused, ir::print_canonical(&nodes[h..])).into_bytes(), None))
        }
        5 => {
            let mut st = Style::random(Rng::for_case(rng.next(), 0x7A81, 0));
            st.crlf = rng.chance(1, 3);
            Some((ir::print(nodes, &mut st).into_bytes(), None))
        }
        _ => {
            if nodes.len() < h + 2 || has_exit {
                return None;
            }
            // both at once: the program inside a selected branch, a run of the branch's lines in an included file
            let a = h + rng.usize(nodes.len() - h - 1);
            let b = a + 1 + rng.usize(nodes.len() - a - 1);
            let main = format!("{}.if 1\n{}.include \"part.inc\"\n{}.endif\n", ir::print_canonical(&nodes[..h]), ir::print_canonical(&nodes[h..a]), ir::print_canonical(&nodes[b..]));
            Some((main.into_bytes(), Some(ir::print_canonical(&nodes[a..b]).into_bytes())))
        }
    }
}

fn build(main: &[u8], part: &Option<Vec<u8>>) -> Outcome {
    match part {
        Some(p) => fw::build_main_with_part_bytes(main, p),
        None => fw::build_str(&String::from_utf8_lossy(main)),
    }
}

/// `base` is the result of build_str(print_canonical(nodes)), which the caller has found to be right
pub fn check_one(ctx: &Ctx, nodes: &[Node], base: &BuildResult, rng: &mut Rng, prefix: &str) {
    // (the thorough tier runs a thousand times as many programs: every fourth of them gets a variant)
    if ctx.tier == fw::Tier::Thorough && rng.below(4) != 0 {
        return;
    }
    let kind = rng.usize(KINDS.len());
    let Some((main, part)) = make(nodes, kind, rng) else { return };
    let out = build(&main, &part);
    ctx.eval(1);
    ctx.count(&format!("variants:{}", KINDS[kind]), 1);
    match &out {
        Outcome::Err(e) if e.starts_with("HARNESS:") => ctx.inconclusive(e.clone()),
        Outcome::Ok(o) if same(o, base) => {}
        _ => ctx.violation(
            format!("{}/variant/{}", prefix, KINDS[kind]),
            format!("the same program {}: {} instead of the result of the program handed over as one plain text", KINDS[kind], fw::clip(&format!("{:?}", out.brief()), 160)),
            json!({"variant": KINDS[kind], "base_source": ir::print_canonical(nodes), "main": String::from_utf8_lossy(&main), "main_hex": fw::hex(&main, 1 << 20), "part_hex": part.as_ref().map(|p| fw::hex(p, 1 << 20)), "observed": out.brief()}),
        ),
    }
}

fn unhex(s: &str) -> Vec<u8> {
    (0..s.len() / 2).filter_map(|i| u8::from_str_radix(&s[2 * i..2 * i + 2], 16).ok()).collect()
}

pub fn replay(ctx: &Ctx, case: &Value) -> i32 {
    let base = fw::build_str(case["base_source"].as_str().unwrap_or(""));
    let main = unhex(case["main_hex"].as_str().unwrap_or(""));
    let part = case["part_hex"].as_str().map(unhex);
    let out = build(&main, &part);
    ctx.eval(1);
    ctx.distinct(1);
    ctx.distinct(2);
    let ok = matches!((&base, &out), (Outcome::Ok(a), Outcome::Ok(b)) if same(a, b));
    if !ok {
        ctx.violation("variant/replay", format!("the variant still differs from the plain program: {:?} vs {:?}", out.kind(), base.kind()), case.clone());
    }
    fw::finish(ctx, "replay", &[])
}
